#!/usr/bin/env python3
"""
rs2lean_reader — the translator of the second tie of C08: `rlib/io/src/reader.rs` (the buffered token / line `Reader`) into Lean 4
definitions (`lean/RlibModel/Generated/ReaderSrc.lean`) over the fixed prelude `lean/RlibModel/Generated/IoPrelude.lean`.

    python3 tools/rs2lean_reader.py SRC.rs --namespace Rlib.ReaderSrc --out lean/RlibModel/Generated/ReaderSrc.lean --fns new,refill,…

Same discipline as tools/rs2lean.py / rs2lean_typed.py: tokenizer -> recursive-descent parser -> AST -> syntax-directed emitter, ONE RULE
PER CONSTRUCT, no optimisation, no reordering; anything without a rule is an error `file:line: …` (a translator-subset problem, never
skipped silently).  Imported read-only from rs2lean.py: `tokenize` (through `Parser`), the `Parser` helpers (`peek/at/next/eat/expect/
ident/err/skip_braces`), `Node`, `TranslateError`, `KEYWORDS`, `write_if_changed`, `SUBSET`, `tie_findings`.  COPIED (structure only,
re-typed here because the originals accept integer types only): the precedence ladder of `rs2lean_typed.TParser.parse_expr …
parse_postfix` and the statement loop of `rs2lean.Parser.parse_block` (extended by `while { block }`, `loop`, `match`, `break value`).

TRANSLATION SCHEME
==================
Types (a Rust type -> the Lean type of ONE component)
  T1  `usize`                            `Nat`; `+ -` are the CHECKED `SrcIo.uadd / usub` (overflow-checks = true, 64 bit)
  T2  `u8`                               `UInt8`; `+ -` are the checked `SrcIo.badd / bsub`
  T3  `char`                             `UInt8`: a `char` only arises as `u8 as char` (rule E9) or as a literal < 256 — its code point
  T4  `bool`                             `Bool`
  T5  `String`                           `Array UInt8` (the code points of its chars; Latin-1 reading as in the hand-written model)
  T6  `[u8; N]`                          `Array UInt8` (the length is the array's size; `N` is not part of the Lean type)
  T7  `Box<dyn Read [+ 'a]>`             `SrcIo.Source` — the ORACLE: the schedule of answers the byte source will give
  T8  `Option<T>`                        `Option T'`
  T9  `$t` (a `:ty` macro parameter)     `Int` in the range of the Lean parameter `(t<i> : IntTy)`; `+ - *` go through `Rlib.checked t<i>`
  T10 `io::Result<usize>`                `SrcIo.IoResult` (only as the value of the oracle call R1)
  T11 `struct S<'a> { f: T, … }`         a value = the components of its fields in declaration order; `Self`, `&mut S`, `&S` are that value
Items
  I1  `use …;`, `pub trait X { fn …; }`  ignored
  I2  `struct`                           T11 (one struct per file is used: the one named by `--struct`)
  I3  `impl<'a> S<'a> { const C: usize = e; fn … }`      `def C : Nat := ⟦e⟧` (literals, `<< + - *` only); one `def` per requested function
                                         and per function it calls (callees first).  `&mut self` / `x: &mut S`: the components are the
                                         first parameters and the function returns `Except Panic (components × result)` (components only
                                         when it returns `()`).  `fn f(x: T) -> Self` returns the components.  Names: `f`.
  I4  `impl Tr for String / char { fn read(r: &mut S) -> Self }`     as I3, named `String_read` / `char_read`
  I5  `macro_rules! m { ($t:ty) => { impl Tr for $t { fn … } } }` + `m!(i8); …`     the body is translated ONCE as `def m (fuel) (t0 : IntTy) …`;
                                         the invocations are `def m_instances : List IntTy`.  Macros with repetitions (`$(…),*`) and
                                         generic functions (`fn f<T: …>`) are outside the subset (error when requested).
Names
  N1  parameters `p0 p1 …` (struct components first), locals `v0 v1 …` in order of binding, macro parameters `t0 …`; fields are
      positional.  Only function / macro names survive: renaming variables, fields, macro parameters, comments, layout => identical text.
Expressions (⟦e⟧ = steps executed in Rust's evaluation order, then a pure term)
  E1  `x`, `self`, `self.f`, `r.f`       the current Lean name(s)
  E2  integer literal                    `(n : Nat)` / `(n : UInt8)` / `(n : Int)` by the type of its context (other operand, assigned place,
                                         annotation, return type); `b'c'` is a `u8`, `'c'` a `char` literal (escapes `\\n \\r \\t \\0 \\\\ \\' \\xNN`)
  E3  `true`, `false`                    `true`, `false`
  E4  `e1 + e2`, `-`, `*` on T1/T2/T9    [bind v ← SrcIo.uadd ⟦e1⟧ ⟦e2⟧] … / [bind v ← checked t (⟦e1⟧ * ⟦e2⟧)]
  E5  `e1 == e2`, `!= < <= > >=`         `⟦e1⟧ = ⟦e2⟧` … (a decidable Prop; only as a condition C1 or, as a value, `decide`)
  E6  `S::C`, `Self::C`                  the constant of I3
  E7  `e[i]` (`[u8; N]`, `i: usize`)     [bind v ← SrcIo.index ⟦e⟧ ⟦i⟧]   (out of range ⇒ `Panic.index`)
  E8  `e.is_ascii_whitespace()`, `e.is_ascii_digit()` (`u8`)      `(SrcIo.isAsciiWhitespace ⟦e⟧)`, `(SrcIo.isAsciiDigit ⟦e⟧)`
  E9  `e as char` (`u8`), `e as $t` (`u8`)      ⟦e⟧ ;  `(IntTy.wrap t (Int.ofNat (UInt8.toNat ⟦e⟧)))`
  E10 `String::new()`, `Some(e)`, `None`, `[x; n]`, `S { f: e, … }`      `(#[] : Array UInt8)`, `(some ⟦e⟧)`, `none`, `(Array.replicate ⟦n⟧ ⟦x⟧)`, the components
  E11 `x.m(args)`, `S::m(args)` (m a function of I3/I4)      args left to right, then [bind (x', r) ← m fuel <x> <args>], `x` is rebound to `x'`
  E12 `r.unwrap()` on T10                `match ⟦r⟧ with | .ok n => n | _ => .error .unwrap`
  E13 `!e`, `e1 && e2`, `e1 || e2`       only as conditions (C1)
Oracle and slices
  R1  `p.f.read(&mut p.g[a..])`, f: T7, g: T6      [bind room ← SrcIo.sliceFrom ⟦g⟧ ⟦a⟧]  (`a > len` ⇒ `Panic.index`), then
                                         `match SrcIo.read ⟦f⟧ ⟦g⟧ ⟦a⟧ room with | (ans, g', f') =>` — ONE call of the external `Read::read`: its
                                         answer, the buffer and the source after the call (`g`, `f` are rebound); the value is `ans` (T10)
  R2  `p.g.copy_within(a..b, d);`        [bind g' ← SrcIo.copyWithin ⟦g⟧ ⟦a⟧ ⟦b⟧ ⟦d⟧], `g` rebound
Conditions (continuation style: ⟦c⟧(T, F) with T / F the code of the two outcomes; F — or T — is DUPLICATED where needed)
  C1  `a && b` → ⟦a⟧(⟦b⟧(T, F), F);  `a || b` → ⟦a⟧(T, ⟦b⟧(T, F));  `!a` → ⟦a⟧(F, T);  otherwise steps(c) then `if ⟦c⟧ then (T) else (F)`
      (a `bool` value `e` is the Prop `⟦e⟧ = true`).  Short-circuiting is therefore exact: the steps of `b` (a `peek()` that may
      refill or panic) only run where Rust runs them, and T / F continue with the state `b` left.
Statements (⟦s ; rest⟧)
  S1  `let [mut] x [: T] = e;`           steps(e), `let v := ⟦e⟧`, x ↦ v (shadowing an existing name: error)
  S2  `p = e;`, `p op= e;` (p = `x` | `x.f`)      steps, `let v := …` / the checked operation E4, p ↦ v
  S3  `if c { A } [else { B } | else if …]`       ⟦c⟧(⟦A ; rest⟧, ⟦B ; rest⟧) — the continuation is duplicated
  S4  `return [e];` / tail expression    `.ok (<current components of the &mut parameter>, ⟦e⟧)`; not inside a loop
  S5  `while C { B }`, C an expression or a block `{ stmts; cond }`      its own definition, emitted before the function:
                                           `def f_loopK : Nat → params → Except Panic (state) | 0, … => .error .fuel | fuel + 1, p… =>`
                                             ⟦stmts ;⟧ ⟦cond⟧( ⟦B ; f_loopK fuel <current values>⟧ ,  `.ok (<current state>)` )
                                         params = the variables in scope mentioned in the loop, in order of first occurrence in its text
                                         (a struct variable = all its components); state = the `mut` ones.  At the loop:
                                         [bind (state) ← f_loopK fuel <values>], the state variables are rebound.
  S6  `break;` in a `while`              `.ok (<current state>)`
  S7  `let x = loop { B };` / `loop { B }`, B containing the oracle call R1      as S5 without a condition; `continue` and falling off the
                                         end of B → `f_loopK fuel <current values>`; `break e` → `.ok (<current state>, ⟦e⟧)`.  Its BUDGET at
                                         the call site is `(SrcIo.retryBudget <the source component>)` instead of `fuel`: a round that
                                         `continue`s has consumed one answer of the schedule (Lemmas/ReaderSrc.lean proves the budget suffices)
  S8  `match e { arms }`, e of T10       patterns `Ok(x)`, `Err(x) if x.kind() == [path::]ErrorKind::Interrupted`, `Err(x)` / `Err(_)`, `x`, `_`:
                                         `match ⟦e⟧ with | .ok v => … | .interrupted => … | .failed => …`, each Lean arm = the FIRST Rust arm that
                                         matches that constructor (a binder `x` ↦ the constructor term); arm bodies: `continue`, `break e`,
                                         an expression, a block.  A constructor no arm matches: error.
  S9  `x.push(e);` (String)              x ↦ `(Array.push ⟦x⟧ ⟦e⟧)`
  S10 `x.pop().unwrap();` (String)       `if ⟦x⟧.size = 0 then .error .unwrap else` x ↦ `(Array.pop ⟦x⟧)`
  S11 `debug_assert!(…);`                NOTHING (not evaluated): the harness builds rlib in the release profile, debug assertions off
  S12 `e;`                               steps(e), the value is dropped
Fuel
  F1  every function takes `fuel`; calls and `while` loops pass on `fuel` (in a loop definition: the predecessor bound by `fuel + 1`).
"""
import json
import os
import re
import sys

sys.path.insert(0, os.path.dirname(os.path.abspath(__file__)))
from rs2lean import TranslateError, Parser, Node, KEYWORDS, write_if_changed, SUBSET, tie_findings  # noqa: E402,F401

INT_TYPES = {"i8": (True, 8), "i16": (True, 16), "i32": (True, 32), "i64": (True, 64), "i128": (True, 128), "isize": (True, 64),
             "u8": (False, 8), "u16": (False, 16), "u32": (False, 32), "u64": (False, 64), "u128": (False, 128), "usize": (False, 64)}
USIZE, U8, CHAR, BOOL, STRING, SOURCE, ARRAY, UNIT, IORES = ("usize",), ("u8",), ("char",), ("bool",), ("string",), ("source",), ("array",), ("unit",), ("iores",)
ESC = {"n": 10, "r": 13, "t": 9, "0": 0, "\\": 92, "'": 39, '"': 34}


# ------------------------------------------------------------------------------------------------
# parser
# ------------------------------------------------------------------------------------------------

class RParser(Parser):
    def __init__(self, src, file):
        super().__init__(src, file, allow_strings=True)
        self.src = src
        self.macro_params = []

    # -- types --------------------------------------------------------------------------------------
    def is_lifetime(self, k=0):
        t = self.peek(k)
        return t.kind == "str" and re.fullmatch(r"'[A-Za-z_][A-Za-z0-9_]*", t.val) is not None

    def skip_lifetime_args(self):
        """`<'a>` / `<'_>` after a struct name"""
        if self.at("<") and self.is_lifetime(1):
            self.next()
            while self.is_lifetime():
                self.next()
                self.eat(",")
            self.expect(">")

    def parse_type(self):
        t = self.peek()
        if self.at("&") or self.at("&&"):
            self.next()
            if self.is_lifetime():
                self.next()
            mut = bool(self.eat("mut"))
            return ("ref", mut, self.parse_type())
        if self.at("("):
            self.next()
            if self.eat(")"):
                return UNIT
            self.err("tuple types are outside the translated subset", t)
        if self.at("["):
            self.next()
            el = self.parse_type()
            if el != U8:
                self.err("only arrays of `u8` are in the translated subset", t)
            self.expect(";")
            n = self.parse_expr()
            self.expect("]")
            return ("array", n)
        if self.at("$"):
            self.next()
            n = self.ident("macro parameter").val
            if n not in self.macro_params:
                self.err(f"`${n}` is not a parameter of the enclosing macro", t)
            return ("int", self.macro_params.index(n))
        if self.at("Self"):
            self.next()
            return ("self",)
        name = self.ident("type").val
        if name == "Box":
            self.expect("<")
            self.expect("dyn")
            path = [self.ident("trait").val]
            while self.eat("::"):
                path.append(self.ident("trait").val)
            while self.eat("+"):
                if self.is_lifetime():
                    self.next()
                else:
                    self.ident("bound")
            self.expect(">")
            if path[-1] != "Read":
                self.err(f"`Box<dyn {'::'.join(path)}>` is outside the translated subset (only `Box<dyn Read>`: the oracle)", t)
            return SOURCE
        if name == "Option":
            self.expect("<")
            inner = self.parse_type()
            self.expect(">")
            return ("option", inner)
        if name in ("usize", "u8", "char", "bool"):
            return (name,)
        if name == "String":
            return STRING
        if name == "Self":
            return ("self",)
        if name in INT_TYPES:
            return ("cint", name)
        if self.at("::"):
            self.err("path types are outside the translated subset", t)
        if self.at("<") and not self.is_lifetime(1):
            self.err(f"generic type `{name}<…>` is outside the translated subset", t)
        self.skip_lifetime_args()
        return ("named", name)

    # -- items --------------------------------------------------------------------------------------
    def parse_program(self):
        prog = Node("program", 1, structs={}, fns=[], consts={}, macros={}, invocations=[], skipped=[])
        while self.peek().kind != "eof":
            t = self.peek()
            if self.at("#"):
                self.next()
                self.eat("!")
                self.expect("[")
                depth = 1
                while depth:
                    x = self.next()
                    if x.kind == "eof":
                        self.err("unterminated attribute", t)
                    depth += (x.val == "[") - (x.val == "]") if x.kind == "punct" else 0
                continue
            if self.at("use"):
                while not self.eat(";"):
                    if self.peek().kind == "eof":
                        self.err("unterminated `use`", t)
                    self.next()
                continue
            self.eat("pub")
            if self.at("struct"):
                self.parse_struct(prog)
            elif self.at("trait"):
                while not self.at("{"):
                    if self.peek().kind == "eof":
                        self.err("unterminated trait", t)
                    self.next()
                self.skip_braces()
            elif self.at("impl"):
                self.parse_impl(prog, None)
            elif self.at("macro_rules") and self.at("!", 1):
                self.parse_macro_rules(prog)
            elif t.kind == "ident" and self.at("!", 1):
                self.next()
                self.next()
                self.expect("(")
                args = []
                while not self.at(")"):
                    a = self.next()
                    if a.kind == "eof":
                        self.err("unterminated macro invocation", t)
                    if not (a.kind == "punct" and a.val == ","):
                        args.append(a.val)
                self.expect(")")
                self.eat(";")
                prog.invocations.append(Node("invocation", t.line, name=t.val, args=args))
            else:
                self.err(f"top-level item starting with `{t.val}` is outside the translated subset")
        return prog

    def parse_struct(self, prog):
        t = self.expect("struct")
        name = self.ident("struct name").val
        self.skip_lifetime_args()
        if not self.at("{"):
            self.err("generic / unit / tuple structs are outside the translated subset", t)
        self.next()
        fields = []
        while not self.at("}"):
            self.eat("pub")
            f = self.ident("field name")
            self.expect(":")
            ty = self.parse_type()
            fields.append((f.val, ty, f.line))
            if not self.eat(","):
                break
        self.expect("}")
        prog.structs[name] = Node("struct", t.line, name=name, fields=fields)

    def parse_impl(self, prog, macro):
        """`impl<'a> S<'a> { … }` or `impl Tr for X { … }`; the functions are recorded with the position of their body."""
        t = self.expect("impl")
        self.skip_lifetime_args()
        generic_err = None
        if self.at("<"):
            generic_err = TranslateError(self.file, t.line, "a generic `impl<…>` is outside the translated subset")
            depth = 0
            while True:
                x = self.next()
                if x.kind == "eof":
                    self.err("unbalanced `<`", t)
                depth += (x.val == "<") - (x.val == ">") if x.kind == "punct" else 0
                if depth == 0:
                    break
        first, trait = None, None
        save = self.i
        try:
            first = self.parse_type()
            if self.eat("for"):
                trait, first = first, self.parse_type()
        except TranslateError as e:
            generic_err = generic_err or e
            self.i = save
        while not self.at("{"):
            if self.peek().kind == "eof":
                self.err("unterminated impl", t)
            self.next()
        self.expect("{")
        while not self.at("}"):
            x = self.peek()
            if self.at("#"):
                self.next()
                self.expect("[")
                while not self.eat("]"):
                    self.next()
                continue
            self.eat("pub")
            if self.at("const"):
                self.next()
                cname = self.ident("constant").val
                self.expect(":")
                cty = self.parse_type()
                self.expect("=")
                ce = self.parse_expr()
                self.expect(";")
                prog.consts[cname] = Node("const", x.line, name=cname, ty=cty, expr=ce)
            elif self.at("fn"):
                fn = self.parse_fn(first, trait, macro)
                fn.impl_error = generic_err
                prog.fns.append(fn)
            else:
                self.err(f"impl item starting with `{x.val}` is outside the translated subset")
        self.expect("}")

    def parse_fn(self, self_ty, trait, macro):
        kw = self.expect("fn")
        name = self.ident("function name").val
        fn = Node("fn", kw.line, name=name, self_ty=self_ty, trait=trait, macro=macro, header_error=None, params=[], ret=UNIT,
                  body_start=None, macro_params=list(self.macro_params), impl_error=None)
        save = self.i
        try:
            if self.at("<"):
                self.err(f"generic function `{name}<…>` is outside the translated subset")
            self.expect("(")
            while not self.at(")"):
                p = self.peek()
                if self.at("&") and (self.at("self", 1) or (self.at("mut", 1) and self.at("self", 2))):
                    self.next()
                    mut = bool(self.eat("mut"))
                    self.next()
                    fn.params.append(("self", ("ref", mut, ("self",)), False))
                elif self.at("self"):
                    self.next()
                    fn.params.append(("self", ("self",), False))
                else:
                    m = bool(self.eat("mut"))
                    pn = self.ident("parameter name").val
                    self.expect(":")
                    fn.params.append((pn, self.parse_type(), m))
                if not self.eat(","):
                    break
                _ = p
            self.expect(")")
            if self.eat("->"):
                fn.ret = self.parse_type()
            if self.at("where"):
                self.err("`where` clauses are outside the translated subset")
        except TranslateError as e:
            fn.header_error = e
            self.i = save
        while not (self.at("{") or self.at(";")):
            if self.peek().kind == "eof":
                self.err("unterminated function", kw)
            self.next()
        if self.eat(";"):
            fn.body_start = None
        else:
            fn.body_start = self.i
            self.skip_braces()
        return fn

    def parse_macro_rules(self, prog):
        t = self.expect("macro_rules")
        self.expect("!")
        name = self.ident("macro name").val
        open_i = self.i
        m = Node("macro", t.line, name=name, params=[], error=None)
        prog.macros[name] = m
        try:
            self.expect("{")
            self.expect("(")
            while not self.at(")"):
                self.expect("$")
                if self.at("("):
                    self.err("macro repetitions `$(…)` are outside the translated subset")
                p = self.ident("macro parameter").val
                self.expect(":")
                frag = self.ident("fragment specifier")
                if frag.val != "ty":
                    self.err(f"macro fragment `:{frag.val}` is outside the translated subset (only `:ty`)", frag)
                m.params.append(p)
                if not self.eat(","):
                    break
            self.expect(")")
            self.expect("=>")
            self.expect("{")
            old, self.macro_params = self.macro_params, list(m.params)
            try:
                while not self.at("}"):
                    if self.at("impl"):
                        self.parse_impl(prog, name)
                    else:
                        self.err(f"macro body item starting with `{self.peek().val}` is outside the translated subset (impl blocks only)")
            finally:
                self.macro_params = old
            self.expect("}")
            self.eat(";")
            if not self.at("}"):
                self.err("a macro with several rules is outside the translated subset")
            self.expect("}")
        except TranslateError as e:
            m.error = e
            prog.fns = [f for f in prog.fns if f.macro != name]
            self.i = open_i
            self.skip_braces()

    # -- blocks and statements (after rs2lean.Parser.parse_block) -----------------------------------------------------
    def parse_block(self):
        open_tok = self.expect("{")
        stmts, tail = [], None
        while not self.at("}"):
            if self.peek().kind == "eof":
                self.err("unbalanced `{`", open_tok)
            if tail is not None:
                self.err("expected `;` or `}` after an expression")
            t = self.peek()
            if self.at("let"):
                self.next()
                mut = bool(self.eat("mut"))
                if self.at("("):
                    self.err("tuple patterns are outside the translated subset")
                x = self.ident("variable name").val
                ann = self.parse_type() if self.eat(":") else None
                if not self.eat("="):
                    self.err("`let` without initialiser is outside the translated subset")
                if self.at("loop"):
                    lt = self.next()
                    e = Node("loop", lt.line, body=self.parse_block())
                else:
                    e = self.parse_expr()
                if self.at("else"):
                    self.err("`let … else` is outside the translated subset")
                self.expect(";")
                stmts.append(Node("let", t.line, name=x, mut=mut, expr=e, ann=ann))
            elif self.at("loop"):
                self.next()
                stmts.append(Node("loopstmt", t.line, body=self.parse_block()))
                self.eat(";")
            elif self.at("while"):
                self.next()
                if self.at("let"):
                    self.err("`while let` is outside the translated subset")
                if self.at("{"):
                    cb = self.parse_block()
                    if cb.tail is None:
                        self.err("the block used as a `while` condition has no value", t)
                    c = Node("condblock", t.line, stmts=cb.stmts, cond=cb.tail)
                else:
                    c = Node("condblock", t.line, stmts=[], cond=self.parse_expr(no_struct=True))
                b = self.parse_block()
                self.eat(";")
                stmts.append(Node("while", t.line, cond=c, body=b))
            elif self.at("if"):
                stmts.append(self.parse_if())
                self.eat(";")
            elif self.at("match"):
                stmts.append(self.parse_match())
                self.eat(";")
            elif self.at("return"):
                self.next()
                e = None if (self.at(";") or self.at("}")) else self.parse_expr()
                if not self.at("}"):
                    self.expect(";")
                stmts.append(Node("return", t.line, expr=e))
            elif self.at("break"):
                self.next()
                e = None if (self.at(";") or self.at("}") or self.at(",")) else self.parse_expr()
                if not self.at("}"):
                    self.expect(";")
                stmts.append(Node("break", t.line, expr=e))
            elif self.at("continue"):
                self.next()
                if not self.at("}"):
                    self.expect(";")
                stmts.append(Node("continue", t.line))
            elif t.kind == "ident" and t.val in ("debug_assert", "debug_assert_eq", "debug_assert_ne") and self.at("!", 1):      # S11
                self.next()
                self.next()
                open_p = self.expect("(")
                depth = 1
                while depth:
                    x = self.next()
                    if x.kind == "eof":
                        self.err("unbalanced `(`", open_p)
                    if x.kind == "punct":
                        depth += (x.val == "(") - (x.val == ")")
                if not self.at("}"):
                    self.expect(";")
                stmts.append(Node("skip", t.line))
            elif t.kind == "ident" and t.val in ("for", "unsafe", "fn", "const", "static", "struct", "enum", "impl", "trait", "mod", "use", "type", "macro_rules"):
                self.err(f"`{t.val}` is outside the translated subset")
            elif self.at("{"):
                self.err("nested bare blocks are outside the translated subset")
            elif self.at(";"):
                self.next()
            else:
                e = self.parse_expr()
                if self.peek().kind == "punct" and self.peek().val in ("=", "+=", "-=", "*=", "/=", "%="):
                    op = self.next()
                    r = self.parse_expr()
                    self.expect(";")
                    stmts.append(Node("assign", t.line, target=e, op=op.val, expr=r))
                elif self.eat(";"):
                    stmts.append(Node("expr", t.line, expr=e))
                else:
                    tail = e
        self.expect("}")
        return Node("block", open_tok.line, stmts=stmts, tail=tail)

    def parse_if(self):
        t = self.expect("if")
        if self.at("let"):
            self.err("`if let` is outside the translated subset")
        c = self.parse_expr(no_struct=True)
        then = self.parse_block()
        els = None
        if self.eat("else"):
            if self.at("if"):
                inner = self.parse_if()
                els = Node("block", inner.line, stmts=[inner], tail=None)
            else:
                els = self.parse_block()
        return Node("if", t.line, cond=c, then=then, els=els)

    def parse_match(self):
        t = self.expect("match")
        scrut = self.parse_expr(no_struct=True)
        self.expect("{")
        arms = []
        while not self.at("}"):
            p = self.peek()
            pat = None
            if self.at("_"):
                self.next()
                pat = ("any", None)
            else:
                n = self.ident("pattern").val
                if n in ("Ok", "Err") and self.at("("):
                    self.next()
                    b = None if self.eat("_") else self.ident("pattern variable").val
                    self.expect(")")
                    pat = (n.lower(), b)
                elif self.at("(") or self.at("::") or self.at("{"):
                    self.err("this pattern is outside the translated subset (only `Ok(x)`, `Err(x)`, a name, `_`)", p)
                else:
                    pat = ("any", n)
            guard = None
            if self.eat("if"):
                if pat[0] != "err" or pat[1] is None:
                    self.err("a match guard is only translated on `Err(x)`", p)
                # `x.kind() == [path::]ErrorKind::Interrupted`
                g = self.parse_expr(no_struct=True)
                ok = (g.kind == "cmp" and g.op == "==" and g.l.kind == "mcall" and g.l.name == "kind" and not g.l.args and g.l.recv.kind == "var"
                      and g.l.recv.name == pat[1] and g.r.kind == "path" and g.r.path[-2:] == ["ErrorKind", "Interrupted"])
                if not ok:
                    self.err("match guard outside the translated subset (only `x.kind() == ErrorKind::Interrupted`)", p)
                guard = "interrupted"
            self.expect("=>")
            bt = self.peek()
            if self.at("{"):
                body = self.parse_block()
                self.eat(",")
            else:
                if self.at("continue"):
                    self.next()
                    body = Node("block", bt.line, stmts=[Node("continue", bt.line)], tail=None)
                elif self.at("break"):
                    self.next()
                    e = None if (self.at(",") or self.at("}")) else self.parse_expr()
                    body = Node("block", bt.line, stmts=[Node("break", bt.line, expr=e)], tail=None)
                elif self.at("return"):
                    self.next()
                    e = None if (self.at(",") or self.at("}")) else self.parse_expr()
                    body = Node("block", bt.line, stmts=[Node("return", bt.line, expr=e)], tail=None)
                else:
                    body = Node("block", bt.line, stmts=[], tail=self.parse_expr())
                if not self.at("}"):
                    self.expect(",")
            arms.append(Node("arm", p.line, pat=pat, guard=guard, body=body))
        self.expect("}")
        return Node("match", t.line, scrut=scrut, arms=arms)

    # -- expressions (precedence ladder after rs2lean_typed.TParser) ----------------------------------------------------
    def parse_expr(self, no_struct=False):
        old = getattr(self, "no_struct", False)
        self.no_struct = no_struct
        try:
            return self.parse_or()
        finally:
            self.no_struct = old

    def parse_or(self):
        e = self.parse_and()
        while self.at("||"):
            t = self.next()
            e = Node("or", t.line, l=e, r=self.parse_and())
        return e

    def parse_and(self):
        e = self.parse_cmp()
        while self.at("&&"):
            t = self.next()
            e = Node("and", t.line, l=e, r=self.parse_cmp())
        return e

    def parse_cmp(self):
        e = self.parse_range()
        t = self.peek()
        if t.kind == "punct" and t.val in ("==", "!=", "<", "<=", ">", ">="):
            self.next()
            r = self.parse_range()
            q = self.peek()
            if q.kind == "punct" and q.val in ("==", "!=", "<", "<=", ">", ">="):
                self.err("chained comparison")
            e = Node("cmp", t.line, op=t.val, l=e, r=r)
        return e

    def range_end_follows(self):
        t = self.peek()
        return not (t.kind == "punct" and t.val in (")", "]", ",", ";", "}", "{")) and t.kind != "eof"

    def parse_range(self):
        t = self.peek()
        if self.at(".."):
            self.next()
            return Node("range", t.line, lo=None, hi=self.parse_shift() if self.range_end_follows() else None)
        e = self.parse_shift()
        if self.at(".."):
            t = self.next()
            return Node("range", t.line, lo=e, hi=self.parse_shift() if self.range_end_follows() else None)
        if self.at("..="):
            self.err("`..=` is outside the translated subset")
        return e

    def parse_shift(self):
        e = self.parse_add()
        while True:
            a, b = self.peek(), self.peek(1)
            if a.kind == "punct" and a.val == "<" and b.kind == "punct" and b.val == "<" and b.pos == a.pos + 1:
                self.next()
                self.next()
                e = Node("bin", a.line, op="<<", l=e, r=self.parse_add())
            else:
                return e

    def parse_add(self):
        e = self.parse_mul()
        while self.peek().kind == "punct" and self.peek().val in ("+", "-"):
            t = self.next()
            e = Node("bin", t.line, op=t.val, l=e, r=self.parse_mul())
        return e

    def parse_mul(self):
        e = self.parse_cast()
        while self.peek().kind == "punct" and self.peek().val in ("*", "/", "%"):
            t = self.next()
            e = Node("bin", t.line, op=t.val, l=e, r=self.parse_cast())
        return e

    def parse_cast(self):
        e = self.parse_unary()
        while self.at("as"):
            t = self.next()
            e = Node("cast", t.line, e=e, ty=self.parse_type())
        return e

    def parse_unary(self):
        t = self.peek()
        if self.at("-"):
            self.err("unary `-` is outside the translated subset")
        if self.at("!"):
            self.next()
            return Node("not", t.line, e=self.parse_unary())
        if self.at("*"):
            self.next()
            return Node("deref", t.line, e=self.parse_unary())
        if self.at("&") or self.at("&&"):
            self.next()
            mut = bool(self.eat("mut"))
            return Node("ref", t.line, e=self.parse_unary(), mut=mut)
        return self.parse_postfix()

    def parse_args(self):
        self.expect("(")
        args = []
        old, self.no_struct = self.no_struct, False
        while not self.at(")"):
            args.append(self.parse_or())
            if not self.eat(","):
                break
        self.no_struct = old
        self.expect(")")
        return args

    def parse_postfix(self):
        e = self.parse_primary()
        while True:
            t = self.peek()
            if self.at("?"):
                self.err("`?` is outside the translated subset")
            elif self.at("."):
                self.next()
                if self.peek().kind == "int":
                    self.err("tuple field access is outside the translated subset")
                m = self.ident("field or method name")
                if self.at("::"):
                    self.err("turbofish is outside the translated subset")
                if self.at("("):
                    e = Node("mcall", t.line, recv=e, name=m.val, args=self.parse_args())
                else:
                    e = Node("field", t.line, e=e, name=m.val)
            elif self.at("["):
                self.next()
                old, self.no_struct = self.no_struct, False
                i = self.parse_or()
                self.no_struct = old
                self.expect("]")
                e = Node("index", t.line, e=e, idx=i)
            elif self.at("("):
                self.err("call on an expression is outside the translated subset")
            else:
                return e

    def char_value(self, t):
        body = t.val[1:-1]
        if len(body) == 1:
            v = ord(body)
        elif body[0] == "\\" and body[1] == "x":
            v = int(body[2:], 16)
        elif body[0] == "\\" and len(body) == 2 and body[1] in ESC:
            v = ESC[body[1]]
        else:
            self.err(f"char literal {t.val} is outside the translated subset", t)
        if v >= 256:
            self.err(f"char literal {t.val} has a code point ≥ 256 (chars are read as the `u8` they come from)", t)
        return v

    def parse_primary(self):
        t = self.peek()
        if self.at("("):
            self.next()
            if self.at(")"):
                self.err("unit value is outside the translated subset", t)
            old, self.no_struct = self.no_struct, False
            e = self.parse_or()
            self.no_struct = old
            if self.at(","):
                self.err("tuples are outside the translated subset", t)
            self.expect(")")
            return e
        if self.at("["):                                                                     # E10 `[x; n]`
            self.next()
            x = self.parse_or()
            if not self.eat(";"):
                self.err("only the form `[x; n]` of array expressions is in the translated subset", t)
            n = self.parse_or()
            self.expect("]")
            return Node("arrayrep", t.line, x=x, n=n)
        if t.kind == "int":
            self.next()
            m = re.fullmatch(r"(0x[0-9a-fA-F_]+|0b[01_]+|0o[0-7_]+|[0-9][0-9_]*)((?:[iu](?:8|16|32|64|128|size))?)", t.val)
            if not m:
                self.err(f"literal `{t.val}` is outside the translated subset (integers only)", t)
            return Node("lit", t.line, value=int(m.group(1).replace("_", ""), 0), suffix=m.group(2) or None)
        if t.kind == "str":
            if t.val.startswith("'") and t.val.endswith("'") and len(t.val) >= 3:
                self.next()
                is_byte = t.pos > 0 and self.src[t.pos - 1] == "b" and (t.pos < 2 or not (self.src[t.pos - 2].isalnum() or self.src[t.pos - 2] == "_"))
                return Node("charlit", t.line, value=self.char_value(t), byte=is_byte)
            self.err("string literals / lifetimes in expression position are outside the translated subset", t)
        if t.kind == "ident" and t.val in ("true", "false"):
            self.next()
            return Node("boollit", t.line, value=t.val)
        if self.at("|") or self.at("||") or self.at("move"):
            self.err("closures are outside the translated subset")
        if self.at("$"):
            self.err("a macro parameter in expression position is outside the translated subset")
        if t.kind == "ident" and t.val in ("if", "match", "loop", "while", "for", "unsafe", "return", "break", "continue"):
            self.err(f"`{t.val}` in expression position is outside the translated subset")
        if t.kind != "ident" or (t.val in KEYWORDS and t.val not in ("self", "Self")):
            self.err(f"expected an expression, found `{t.val or 'end of file'}`")
        path = [self.next().val]
        while self.at("::"):
            self.next()
            if self.at("<"):
                self.err("turbofish is outside the translated subset")
            path.append(self.ident("path segment").val)
        if self.at("!") and (self.at("(", 1) or self.at("[", 1) or self.at("{", 1)):
            self.err(f"macro `{'::'.join(path)}!` in expression position is outside the translated subset", t)
        if self.at("("):
            return Node("call", t.line, path=path, args=self.parse_args())
        if self.at("{") and not self.no_struct and len(path) == 1 and path[0][0].isupper():
            self.next()
            fields = []
            while not self.at("}"):
                f = self.ident("field name")
                if self.eat(":"):
                    old, self.no_struct = self.no_struct, False
                    fields.append((f.val, self.parse_or()))
                    self.no_struct = old
                else:
                    fields.append((f.val, Node("var", f.line, name=f.val)))
                if not self.eat(","):
                    break
            self.expect("}")
            return Node("structlit", t.line, name=path[0], fields=fields)
        if len(path) == 1:
            return Node("var", t.line, name=path[0])
        return Node("path", t.line, path=path)


# ------------------------------------------------------------------------------------------------
# emitter
# ------------------------------------------------------------------------------------------------

LEAN_TY = {USIZE: "Nat", U8: "UInt8", CHAR: "UInt8", BOOL: "Bool", STRING: "Array UInt8", SOURCE: "SrcIo.Source", ARRAY: "Array UInt8",
           IORES: "SrcIo.IoResult"}
PROP = ("prop",)


def indent(lines):
    return ["  " + l for l in lines]


class B:
    """binding of a Rust variable: type, current Lean term (a list of component terms for a struct), mutability"""
    __slots__ = ("ty", "val", "mut")

    def __init__(self, ty, val, mut):
        self.ty, self.val, self.mut = ty, val, mut


class Scope:
    """one Lean definition: fresh names, the fuel identifier, flags"""

    def __init__(self):
        self.n = 0
        self.oracle_used = False
        self.val_ty = None

    def fresh(self):
        v = f"v{self.n}"
        self.n += 1
        return v


class Ctx:
    def __init__(self, kind, ret, brk, cont):
        self.kind, self.ret, self.brk, self.cont = kind, ret, brk, cont


def mentioned(node, acc):
    if isinstance(node, Node):
        if node.kind == "var" and node.name not in acc:
            acc.append(node.name)
        for v in node.__dict__.values():
            mentioned(v, acc)
    elif isinstance(node, (list, tuple)):
        for x in node:
            mentioned(x, acc)
    return acc


def strip(e):
    while e.kind in ("ref", "deref"):
        e = e.e
    return e


class FnEmitter:
    def __init__(self, tr, fn):
        self.tr, self.fn, self.file = tr, fn, tr.file
        self.loop_defs = []
        self.loop_cache = {}
        self.nloops = 0
        self.tparams = [f"t{i}" for i in range(len(fn.macro_params))]

    def err(self, line, msg):
        raise TranslateError(self.file, line, msg)

    # -- types --------------------------------------------------------------------------------------
    def norm(self, ty, line):
        if ty[0] == "ref":
            return self.norm(ty[2], line)
        if ty[0] == "self":
            st = self.fn.self_ty
            if st is None:
                self.err(line, "`Self` outside an impl")
            return self.norm(st, line)
        if ty[0] == "named":
            if ty[1] not in self.tr.prog.structs:
                self.err(line, f"type `{ty[1]}` is outside the translated subset")
            return ("struct", ty[1])
        if ty[0] == "array":
            return ARRAY
        if ty[0] == "option":
            return ("option", self.norm(ty[1], line))
        if ty[0] == "cint":
            self.err(line, f"the concrete integer type `{ty[1]}` has no rule here (only `usize`, `u8` and `$t` macro parameters)")
        return ty

    def comp_tys(self, ty, line):
        if ty[0] == "struct":
            return [self.norm(f[1], f[2]) for f in self.tr.prog.structs[ty[1]].fields]
        return [ty]

    def lean_ty(self, ty, line):
        if ty in LEAN_TY:
            return LEAN_TY[ty]
        if ty[0] == "int":
            return "Int"
        if ty[0] == "option":
            return f"Option ({self.lean_ty(ty[1], line)})"
        if ty[0] == "struct":
            return " × ".join(self.lean_ty(t, line) for t in self.comp_tys(ty, line))
        self.err(line, f"no Lean type for `{ty}`")

    def tterm(self, ty):
        return self.tparams[ty[1]]

    # -- expressions --------------------------------------------------------------------------------
    def place(self, e, env, line):
        """`x` | `x.f` (through `&`, `*`) -> (variable name, component index or None, type)"""
        e = strip(e)
        if e.kind == "var":
            if e.name not in env:
                self.err(line, f"unknown variable `{e.name}`")
            return e.name, None, env[e.name].ty
        if e.kind == "field":
            b = strip(e.e)
            if b.kind == "var" and b.name in env and env[b.name].ty[0] == "struct":
                fields = self.tr.prog.structs[env[b.name].ty[1]].fields
                for i, f in enumerate(fields):
                    if f[0] == e.name:
                        return b.name, i, self.norm(f[1], f[2])
                self.err(line, f"struct `{env[b.name].ty[1]}` has no field `{e.name}`")
        self.err(line, "this place expression is outside the translated subset (only `x` and `x.f`)")

    def read_place(self, pl, env):
        name, idx, ty = pl
        return env[name].val if idx is None else env[name].val[idx]

    def set_place(self, pl, env, term):
        name, idx, ty = pl
        b = env[name]
        if idx is None:
            env[name] = B(b.ty, term, b.mut)
        else:
            vals = list(b.val)
            vals[idx] = term
            env[name] = B(b.ty, vals, b.mut)

    def lit(self, e, want):
        if want is None:
            self.err(e.line, "the type of this integer literal cannot be read from its context")
        if e.suffix and (e.suffix,) != want:
            self.err(e.line, f"literal suffix `{e.suffix}` does not agree with its context")
        if want == USIZE:
            if e.value >= 2 ** 64:
                self.err(e.line, "literal does not fit `usize`")
            return f"({e.value} : Nat)"
        if want in (U8, CHAR):
            if e.value >= 256 or want == CHAR:
                self.err(e.line, "literal does not fit `u8`")
            return f"({e.value} : UInt8)"
        if want[0] == "int":
            return f"({e.value} : Int)"
        self.err(e.line, f"an integer literal where a value of type `{want}` is expected")

    def bind(self, sc, call, npat=1):
        names = [sc.fresh() for _ in range(npat)]
        pat = names[0] if npat == 1 else "(" + ", ".join(names) + ")"
        return [f"match {call} with", "| .error e => .error e", f"| .ok {pat} =>"], names

    def pair(self, l, r, env, sc, want=None):
        """two operands of one type, left to right; a literal takes the type of the other side"""
        if l.kind == "lit" and r.kind != "lit":
            s2, t2, ty = self.ex(r, env, sc, want)
            return s2, self.lit(l, ty), t2, ty
        s1, t1, ty = self.ex(l, env, sc, want)
        s2, t2, ty2 = self.ex(r, env, sc, ty)
        if ty2 != ty:
            self.err(l.line, f"operands of different types ({ty} / {ty2})")
        return s1 + s2, t1, t2, ty

    def arith(self, op, t1, t2, ty, sc, line):
        if ty == USIZE and op in "+-":
            return self.bind(sc, f"SrcIo.{'uadd' if op == '+' else 'usub'} {t1} {t2}")
        if ty == U8 and op in "+-":
            return self.bind(sc, f"SrcIo.{'badd' if op == '+' else 'bsub'} {t1} {t2}")
        if ty[0] == "int" and op in "+-*":
            return self.bind(sc, f"checked {self.tterm(ty)} ({t1} {op} {t2})")
        self.err(line, f"`{op}` on values of type `{ty}` has no rule")

    def ex(self, e, env, sc, want=None):
        k = e.kind
        if k in ("ref", "deref"):
            return self.ex(e.e, env, sc, want)
        if k == "var":
            if e.name == "None":
                if want is None or want[0] != "option":
                    self.err(e.line, "`None` where no `Option` is expected")
                return [], "none", want
            if e.name not in env:
                self.err(e.line, f"unknown variable `{e.name}`")
            return [], env[e.name].val, env[e.name].ty
        if k == "field":
            pl = self.place(e, env, e.line)
            return [], self.read_place(pl, env), pl[2]
        if k == "lit":
            return [], self.lit(e, want), want
        if k == "charlit":
            return [], f"({e.value} : UInt8)", (U8 if e.byte else CHAR)
        if k == "boollit":
            return [], e.value, BOOL
        if k == "bin":
            if e.op not in ("+", "-", "*"):
                self.err(e.line, f"`{e.op}` has no rule in expression position")
            steps, t1, t2, ty = self.pair(e.l, e.r, env, sc, want)
            s, names = self.arith(e.op, t1, t2, ty, sc, e.line)
            return steps + s, names[0], ty
        if k == "cmp":
            steps, t1, t2, ty = self.pair(e.l, e.r, env, sc)
            if ty not in (USIZE, U8, CHAR) and ty[0] != "int":
                self.err(e.line, f"comparison of values of type `{ty}` has no rule")
            if ty == CHAR and e.op not in ("==", "!="):
                self.err(e.line, "ordering of `char`s has no rule")
            op = {"==": "=", "!=": "≠", "<": "<", "<=": "≤", ">": ">", ">=": "≥"}[e.op]
            return steps, f"{t1} {op} {t2}", PROP
        if k in ("not", "and", "or"):
            self.err(e.line, "`!`, `&&`, `||` are translated in conditions only")
        if k == "path":
            if len(e.path) == 2 and (e.path[0] == "Self" or e.path[0] in self.tr.prog.structs) and e.path[1] in self.tr.prog.consts:
                c = self.tr.prog.consts[e.path[1]]
                self.tr.used_consts.add(c.name)
                return [], c.name, self.norm(c.ty, c.line)
            self.err(e.line, f"path `{'::'.join(e.path)}` has no rule")
        if k == "call":
            return self.call(e, env, sc, want)
        if k == "mcall":
            return self.mcall(e, env, sc, want)
        if k == "cast":
            steps, t, ty = self.ex(e.e, env, sc)
            to = self.norm(e.ty, e.line)
            if ty == U8 and to == CHAR:
                return steps, t, CHAR
            if ty == U8 and to[0] == "int":
                return steps, f"(IntTy.wrap {self.tterm(to)} (Int.ofNat (UInt8.toNat {t})))", to
            self.err(e.line, f"cast from `{ty}` to `{to}` has no rule")
        if k == "index":
            if e.idx.kind == "range":
                self.err(e.line, "a slice is only translated as the argument of the oracle call `src.read(&mut buf[a..])`")
            pl = self.place(e.e, env, e.line)
            if pl[2] != ARRAY:
                self.err(e.line, f"indexing a value of type `{pl[2]}` has no rule")
            steps, ti, ty = self.ex(e.idx, env, sc, USIZE)
            if ty != USIZE:
                self.err(e.line, "index that is not a `usize`")
            s, names = self.bind(sc, f"SrcIo.index {self.read_place(pl, env)} {ti}")
            return steps + s, names[0], U8
        if k == "structlit":
            sname = e.name
            ty = self.norm(("self",) if sname == "Self" else ("named", sname), e.line)
            fields = self.tr.prog.structs[ty[1]].fields
            given, steps = {}, []
            for fname, fe in e.fields:
                decl = [f for f in fields if f[0] == fname]
                if not decl or fname in given:
                    self.err(e.line, f"field `{fname}` of the struct literal")
                s, t, fty = self.ex(fe, env, sc, self.norm(decl[0][1], decl[0][2]))
                if fty != self.norm(decl[0][1], decl[0][2]):
                    self.err(e.line, f"field `{fname}` initialised with a value of type `{fty}`")
                steps += s
                given[fname] = t
            if len(given) != len(fields):
                self.err(e.line, "struct literal with missing fields / `..base`")
            return steps, [given[f[0]] for f in fields], ty
        if k == "arrayrep":
            if want != ARRAY:
                self.err(e.line, "`[x; n]` where no `[u8; N]` is expected")
            s1, tx, _ = self.ex(e.x, env, sc, U8)
            s2, tn, tyn = self.ex(e.n, env, sc, USIZE)
            if tyn != USIZE:
                self.err(e.line, "array length that is not a `usize`")
            return s1 + s2, f"(Array.replicate {tn} {tx})", ARRAY
        self.err(e.line, f"`{k}` expression is outside the translated subset")

    def call(self, e, env, sc, want):
        p = e.path
        if p == ["String", "new"] and not e.args:
            return [], "(#[] : Array UInt8)", STRING
        if p == ["Some"] and len(e.args) == 1:
            inner = want[1] if want and want[0] == "option" else None
            s, t, ty = self.ex(e.args[0], env, sc, inner)
            if isinstance(t, list):
                self.err(e.line, "`Some` of a struct has no rule")
            return s, f"(some {t})", ("option", ty)
        if len(p) == 2 and (p[0] == "Self" or p[0] in self.tr.prog.structs):
            fn = self.tr.find_fn(p[1], e.line)
            return self.call_user(fn, None, e.args, env, sc, e.line)
        self.err(e.line, f"call of `{'::'.join(p)}` has no rule")

    def call_user(self, fn, recv, args, env, sc, line):
        """E11: arguments left to right, then the receiver / `&mut` struct argument is read, then the call; that variable is rebound to
        the components the callee returns"""
        sig = self.tr.request(fn, line, self.fn)
        actual = ([recv] if recv is not None else []) + list(args)
        if len(actual) != len(sig["params"]):
            self.err(line, f"`{fn.name}` called with {len(actual)} arguments, declared with {len(sig['params'])}")
        steps, slots, mut_var = [], [], None
        for a, (pty, pmut) in zip(actual, sig["params"]):
            if pty[0] == "struct":
                a0 = strip(a)
                if a0.kind != "var" or a0.name not in env or env[a0.name].ty != pty:
                    self.err(line, f"a struct argument of `{fn.name}` that is not a plain variable of that struct")
                if pmut:
                    if mut_var is not None:
                        self.err(line, "two `&mut` struct arguments")
                    mut_var = a0.name
                slots.append(("struct", a0.name))
            else:
                s, t, ty = self.ex(a, env, sc, pty)
                if ty != pty:
                    self.err(line, f"argument of type `{ty}` where `{fn.name}` expects `{pty}`")
                steps += s
                slots.append(("term", t))
        terms = []
        for kind, x in slots:
            terms += list(env[x].val) if kind == "struct" else [x]
        ret = sig["ret"]
        npat = (len(self.comp_tys(env[mut_var].ty, line)) if mut_var else 0) + (0 if ret == UNIT else len(self.comp_tys(ret, line)))
        call = " ".join([sig["lean"], "fuel"] + terms)
        if npat == 0:
            s, names = [f"match {call} with", "| .error e => .error e", "| .ok _ =>"], []
        else:
            s, names = self.bind(sc, call, npat)
        steps += s
        if mut_var:
            n = len(env[mut_var].val)
            env[mut_var] = B(env[mut_var].ty, names[:n], env[mut_var].mut)
            names = names[n:]
        if ret == UNIT:
            return steps, None, UNIT
        return steps, (names if ret[0] == "struct" else names[0]), ret

    def mcall(self, e, env, sc, want):
        r0 = strip(e.recv)
        # a method of this file on a struct variable (E11)
        if r0.kind == "var" and r0.name in env and env[r0.name].ty[0] == "struct":
            fn = self.tr.find_fn(e.name, e.line)
            return self.call_user(fn, r0, e.args, env, sc, e.line)
        if e.name == "read" and r0.kind == "field":                                            # R1: the oracle
            pl = self.place(r0, env, e.line)
            if pl[2] == SOURCE:
                return self.oracle(e, pl, env, sc)
        if e.name in ("push", "pop", "copy_within"):
            self.err(e.line, f"`.{e.name}(…)` is only translated in statement position (`x.push(e);`, `x.pop().unwrap();`, `b.copy_within(a..b, d);`)")
        steps, t, ty = self.ex(e.recv, env, sc)
        if ty == U8 and e.name in ("is_ascii_whitespace", "is_ascii_digit") and not e.args:      # E8
            f = "isAsciiWhitespace" if e.name == "is_ascii_whitespace" else "isAsciiDigit"
            return steps, f"(SrcIo.{f} {t})", BOOL
        if ty == IORES and e.name == "unwrap" and not e.args:                                  # E12
            v = sc.fresh()
            w = sc.fresh()
            return steps + [f"match (match {t} with | SrcIo.IoResult.ok {w} => Except.ok {w} | _ => Except.error Panic.unwrap : Except Panic Nat) with",
                            "| .error e => .error e", f"| .ok {v} =>"], v, USIZE
        self.err(e.line, f"method `.{e.name}(…)` on a value of type `{ty}` has no rule")

    def oracle(self, e, src_pl, env, sc):
        if len(e.args) != 1:
            self.err(e.line, "the oracle call takes one argument")
        a = e.args[0]
        if not (a.kind == "ref" and a.mut and a.e.kind == "index" and a.e.idx.kind == "range" and a.e.idx.lo is not None and a.e.idx.hi is None):
            self.err(e.line, "the argument of the oracle call must have the form `&mut x.buf[a..]`")
        buf_pl = self.place(a.e.e, env, e.line)
        if buf_pl[2] != ARRAY:
            self.err(e.line, "the oracle reads into a `[u8; N]` buffer only")
        steps, ta, ty = self.ex(a.e.idx.lo, env, sc, USIZE)
        if ty != USIZE:
            self.err(e.line, "slice bound that is not a `usize`")
        s, (room,) = self.bind(sc, f"SrcIo.sliceFrom {self.read_place(buf_pl, env)} {ta}")
        ans, nb, ns = sc.fresh(), sc.fresh(), sc.fresh()
        steps += s + [f"match SrcIo.read {self.read_place(src_pl, env)} {self.read_place(buf_pl, env)} {ta} {room} with", f"| ({ans}, {nb}, {ns}) =>"]
        self.set_place(buf_pl, env, nb)
        self.set_place(src_pl, env, ns)
        sc.oracle_used = True
        return steps, ans, IORES

    # -- conditions (C1) ----------------------------------------------------------------------------
    def cond(self, c, env, sc, kt, kf):
        c = strip(c) if c.kind in ("ref", "deref") else c
        if c.kind == "and":
            return self.cond(c.l, env, sc, lambda e1: self.cond(c.r, e1, sc, kt, kf), kf)
        if c.kind == "or":
            return self.cond(c.l, env, sc, kt, lambda e1: self.cond(c.r, e1, sc, kt, kf))
        if c.kind == "not":
            return self.cond(c.e, env, sc, kf, kt)
        steps, t, ty = self.ex(c, env, sc, BOOL)
        if ty == BOOL:
            t = f"{t} = true"
        elif ty != PROP:
            self.err(c.line, f"a value of type `{ty}` used as a condition")
        return steps + [f"if {t} then ("] + indent(kt(dict(env))) + [") else ("] + indent(kf(dict(env))) + [")"]

    # -- statements ---------------------------------------------------------------------------------
    @staticmethod
    def leave(outer, inner):
        return {n: inner[n] for n in outer}

    def block(self, blk, env, sc, ctx, k, kv):
        outer = env
        return self.seq(blk.stmts, 0, blk.tail, dict(env), sc, ctx, lambda e2: k(self.leave(outer, e2)), kv)

    def seq(self, ss, i, tail, env, sc, ctx, k, kv):
        if i == len(ss):
            if tail is not None:
                if kv is None:
                    self.err(tail.line, "a block that ends in a value where none is used")
                return kv(env, tail)
            return k(env)
        s = ss[i]
        last = i == len(ss) - 1 and tail is None

        def rest(e2):
            return self.seq(ss, i + 1, tail, e2, sc, ctx, k, kv)
        kind = s.kind
        if kind == "skip":
            return rest(env)
        if kind == "let":
            if s.name in env:
                self.err(s.line, f"`let {s.name}` shadows a variable in scope (outside the translated subset)")
            ann = self.norm(s.ann, s.line) if s.ann else None
            if s.expr.kind == "loop":
                lines, t, ty = self.loop(s.expr, env, sc, s.line, value=True)
            else:
                lines, t, ty = self.ex(s.expr, env, sc, ann)
            if ty == UNIT or ty == PROP or isinstance(t, list):
                self.err(s.line, "`let` of a value of this type has no rule")
            if ann is not None and ty != ann:
                self.err(s.line, f"annotation `{ann}` on a value of type `{ty}`")
            v = sc.fresh()
            env[s.name] = B(ty, v, s.mut)
            return lines + [f"let {v} := {t}"] + rest(env)
        if kind == "assign":
            pl = self.place(s.target, env, s.line)
            if not env[pl[0]].mut:
                self.err(s.line, f"assignment to `{pl[0]}`, which is not `mut`")
            if pl[2][0] == "struct":
                self.err(s.line, "assignment of a whole struct has no rule")
            if s.op == "=":
                lines, t, ty = self.ex(s.expr, env, sc, pl[2])
                if ty != pl[2]:
                    self.err(s.line, f"a value of type `{ty}` assigned to a place of type `{pl[2]}`")
                v = sc.fresh()
                lines = lines + [f"let {v} := {t}"]
            else:
                if s.op[0] not in "+-*":
                    self.err(s.line, f"`{s.op}` has no rule")
                lines, t, ty = self.ex(s.expr, env, sc, pl[2])
                if ty != pl[2]:
                    self.err(s.line, f"`{s.op}` with operands of types `{pl[2]}` / `{ty}`")
                st, (v,) = self.arith(s.op[0], self.read_place(pl, env), t, ty, sc, s.line)
                lines = lines + st
            self.set_place(pl, env, v)
            return lines + rest(env)
        if kind == "if":
            bkv = kv if last else None
            kt = lambda e1: self.block(s.then, e1, sc, ctx, rest, bkv)                                            # noqa: E731
            kf = (lambda e1: self.block(s.els, e1, sc, ctx, rest, bkv)) if s.els is not None else rest           # noqa: E731
            return self.cond(s.cond, env, sc, kt, kf)
        if kind == "return":
            if ctx.ret is None:
                self.err(s.line, "`return` inside a loop is outside the translated subset")
            return ctx.ret(env, s.expr, s.line)
        if kind == "break":
            if ctx.brk is None:
                self.err(s.line, "`break` outside a loop")
            return ctx.brk(env, s.expr, s.line)
        if kind == "continue":
            if ctx.cont is None:
                self.err(s.line, "`continue` is only translated inside a `loop { … }` around the oracle call")
            return ctx.cont(env, s.line)
        if kind == "while":
            return self.while_loop(s, env, sc, rest)
        if kind == "loopstmt":
            lines, _, _ = self.loop(s, env, sc, s.line, value=False)
            return lines + rest(env)
        if kind == "match":
            return self.match(s, env, sc, ctx, rest, kv if last else None)
        if kind == "expr":
            e = s.expr
            if e.kind == "mcall" and e.name == "push" and len(e.args) == 1:                       # S9
                pl = self.place(e.recv, env, s.line)
                if pl[2] == STRING:
                    lines, t, ty = self.ex(e.args[0], env, sc, CHAR)
                    if ty != CHAR:
                        self.err(s.line, f"`push` of a value of type `{ty}` onto a String")
                    v = sc.fresh()
                    lines = lines + [f"let {v} := (Array.push {self.read_place(pl, env)} {t})"]
                    self.set_place(pl, env, v)
                    return lines + rest(env)
            if e.kind == "mcall" and e.name == "unwrap" and not e.args and e.recv.kind == "mcall" and e.recv.name == "pop" and not e.recv.args:   # S10
                pl = self.place(e.recv.recv, env, s.line)
                if pl[2] == STRING:
                    x = self.read_place(pl, env)
                    v = sc.fresh()
                    self.set_place(pl, env, v)
                    return [f"if {x}.size = 0 then .error .unwrap else", f"let {v} := (Array.pop {x})"] + rest(env)
            if e.kind == "mcall" and e.name == "copy_within" and len(e.args) == 2:                # R2
                pl = self.place(e.recv, env, s.line)
                r = e.args[0]
                if pl[2] == ARRAY and r.kind == "range" and r.lo is not None and r.hi is not None:
                    s1, ta, _ = self.ex(r.lo, env, sc, USIZE)
                    s2, tb, _ = self.ex(r.hi, env, sc, USIZE)
                    s3, td, _ = self.ex(e.args[1], env, sc, USIZE)
                    st, (v,) = self.bind(sc, f"SrcIo.copyWithin {self.read_place(pl, env)} {ta} {tb} {td}")
                    self.set_place(pl, env, v)
                    return s1 + s2 + s3 + st + rest(env)
                self.err(s.line, "`copy_within` is translated in the form `x.buf.copy_within(a..b, d)` only")
            lines, _, _ = self.ex(e, env, sc)
            return lines + rest(env)
        self.err(s.line, f"statement `{kind}` is outside the translated subset")

    def match(self, s, env, sc, ctx, rest, kv):                                                  # S8
        steps, t, ty = self.ex(s.scrut, env, sc)
        if ty != IORES:
            self.err(s.line, f"`match` on a value of type `{ty}` is outside the translated subset (only the answer of the oracle call)")
        lines = steps + [f"match {t} with"]
        accepts = {"ok": ("ok", "any"), "interrupted": ("err", "any"), "failed": ("err", "any")}
        for ctor in ("ok", "interrupted", "failed"):
            arm = None
            for a in s.arms:
                if a.pat[0] in accepts[ctor] and (a.guard is None or a.guard == ctor):
                    arm = a
                    break
            if arm is None:
                self.err(s.line, f"no arm of this `match` covers the answer `{ctor}`")
            e1 = dict(env)
            if ctor == "ok":
                n = sc.fresh()
                head, whole, inner = f"| SrcIo.IoResult.ok {n} => (", f"(SrcIo.IoResult.ok {n})", B(USIZE, n, False)
            else:
                head, whole, inner = f"| SrcIo.IoResult.{ctor} => (", f"SrcIo.IoResult.{ctor}", B(("ioerror",), "()", False)
            if arm.pat[1] is not None:
                if arm.pat[1] in e1:
                    self.err(arm.line, f"pattern variable `{arm.pat[1]}` shadows a variable in scope")
                e1[arm.pat[1]] = B(IORES, whole, False) if arm.pat[0] == "any" else inner
            outer = env
            body = self.seq(arm.body.stmts, 0, arm.body.tail, e1, sc, ctx, lambda e2: rest(self.leave(outer, e2)), kv)
            lines += [head] + indent(body) + [")"]
        return lines

    # -- loops --------------------------------------------------------------------------------------
    def loop_frame(self, node, env, line):
        names = [n for n in mentioned(node, []) if n in env]
        params = [(n, env[n]) for n in names]
        state = [n for n in names if env[n].mut]
        return names, params, state

    def flat_tys(self, params, names, line):
        out = []
        for n, b in params:
            if n in names:
                out += self.comp_tys(b.ty, line)
        return out

    def tuple_of(self, terms):
        return "()" if not terms else (terms[0] if len(terms) == 1 else "(" + ", ".join(terms) + ")")

    def loop_def(self, params, state, body_fn, line, val_ty_fn):
        """emit `def f_loopK : Nat → … → Except Panic (state [× value])` with `body_fn(lenv, lsc, recurse, exit_)` as the `fuel + 1` case.
        A loop that is reached through a duplicated continuation (S3) is emitted once: an identical text reuses the first name."""
        name = "\x00LOOP\x00"
        lsc = Scope()
        lenv, pnames = {}, []
        for n, b in params:
            comps = self.comp_tys(b.ty, line)
            ps = [f"p{len(pnames) + j}" for j in range(len(comps))]
            pnames += ps
            lenv[n] = B(b.ty, ps if b.ty[0] == "struct" else ps[0], b.mut)

        def vals(e2, which):
            out = []
            for n, b in params:
                if n in which:
                    out += list(e2[n].val) if b.ty[0] == "struct" else [e2[n].val]
            return out
        allnames = [n for n, _ in params]
        targs = "".join(f" {t}" for t in self.tparams)
        recurse = lambda e2: [" ".join([name + targs, "fuel"] + vals(e2, allnames))]                              # noqa: E731
        exit_ = lambda e2, extra=None: [".ok " + self.tuple_of(vals(e2, state) + ([extra] if extra else []))]     # noqa: E731
        body = body_fn(lenv, lsc, recurse, exit_)
        ptys = [self.lean_ty(t, line) for t in self.flat_tys(params, allnames, line)]
        stys = [self.lean_ty(t, line) for t in self.flat_tys(params, state, line)]
        vt = val_ty_fn(lsc)
        if vt is not None:
            stys.append(self.lean_ty(vt, line))
        tbind = "".join(f" ({t} : IntTy)" for t in self.tparams)
        sig = " → ".join(["Nat"] + ptys + [f"Except Panic ({' × '.join(stys) if stys else 'Unit'})"])
        text = [f"@[src_def] def {name}{tbind} : {sig}",
                "  | " + ", ".join(["0"] + ["_"] * len(pnames)) + " => .error .fuel",
                "  | " + ", ".join(["fuel + 1"] + pnames) + " =>"] + indent(indent(body))
        key = "\n".join(text)
        if key not in self.loop_cache:
            real = f"{self.fn.lean}_loop{self.nloops}"
            self.nloops += 1
            self.loop_cache[key] = real
            self.loop_defs.append(key.replace(name, real))
        return lsc, self.loop_cache[key]

    def call_loop(self, name, budget, params, state, env, sc, val_ty):
        allnames = [n for n, _ in params]
        terms = []
        for n, b in params:
            terms += list(env[n].val) if b.ty[0] == "struct" else [env[n].val]
        targs = "".join(f" {t}" for t in self.tparams)
        nstate = len(self.flat_tys(params, state, 0))
        npat = nstate + (1 if val_ty is not None else 0)
        call = " ".join([name + targs, budget] + terms)
        if npat == 0:
            lines, names = [f"match {call} with", "| .error e => .error e", "| .ok _ =>"], []
        else:
            lines, names = self.bind(sc, call, npat)
        i = 0
        for n, b in params:
            if n in state:
                k = len(self.comp_tys(b.ty, 0))
                env[n] = B(b.ty, names[i:i + k] if b.ty[0] == "struct" else names[i], b.mut)
                i += k
        _ = allnames
        return lines, (names[-1] if val_ty is not None else None)

    def while_loop(self, s, env, sc, rest):                                                      # S5, S6
        names, params, state = self.loop_frame([s.cond, s.body], env, s.line)

        def body_fn(lenv, lsc, recurse, exit_):
            lctx = Ctx("while", None, lambda e2, v, ln: self.no_value(v, ln) or exit_(e2), None)
            outer = lenv

            def after_cond_stmts(e1):
                return self.cond(s.cond.cond, e1, lsc,
                                 lambda e2: self.block(s.body, e2, lsc, lctx, lambda e3: recurse(self.leave(outer, e3)), None),
                                 lambda e2: exit_(e2))
            return self.seq(s.cond.stmts, 0, None, dict(lenv), lsc, lctx, after_cond_stmts, None)
        _, name = self.loop_def(params, state, body_fn, s.line, lambda lsc: None)
        lines, _ = self.call_loop(name, "fuel", params, state, env, sc, None)
        return lines + rest(env)

    def no_value(self, v, line):
        if v is not None:
            self.err(line, "`break` with a value inside a `while`")
        return None

    def loop(self, node, env, sc, line, value):                                                  # S7
        names, params, state = self.loop_frame(node.body, env, line)
        srcs = []
        for n, b in params:
            tys = self.comp_tys(b.ty, line)
            vals = list(b.val) if b.ty[0] == "struct" else [b.val]
            srcs += [v for t, v in zip(tys, vals) if t == SOURCE]
        if len(srcs) != 1:
            self.err(line, "a `loop { … }` is only translated around the oracle call (exactly one byte source in scope): its budget is the schedule of that source")

        def body_fn(lenv, lsc, recurse, exit_):
            def brk(e2, v, ln):
                if (v is not None) != value:
                    self.err(ln, "`break` with / without a value does not fit the use of this `loop`")
                if v is None:
                    return exit_(e2)
                st, t, ty = self.ex(v, e2, lsc, lsc.val_ty)
                if lsc.val_ty is not None and lsc.val_ty != ty:
                    self.err(ln, "`break` values of different types")
                lsc.val_ty = ty
                return st + exit_(e2, t)
            lctx = Ctx("loop", None, brk, lambda e2, ln: recurse(self.leave(lenv, e2)))
            outer = lenv
            return self.block(node.body, lenv, lsc, lctx, lambda e3: recurse(self.leave(outer, e3)), None)
        lsc, name = self.loop_def(params, state, body_fn, line, lambda l: l.val_ty if value else None)
        if not lsc.oracle_used:
            self.err(line, "a `loop { … }` without the oracle call inside is outside the translated subset")
        if value and lsc.val_ty is None:
            self.err(line, "this `loop` never `break`s with a value")
        lines, v = self.call_loop(name, f"(SrcIo.retryBudget {srcs[0]})", params, state, env, sc, lsc.val_ty if value else None)
        return lines, v, (lsc.val_ty if value else UNIT)

    # -- the function -------------------------------------------------------------------------------
    def emit(self):
        fn = self.fn
        if fn.impl_error:
            raise fn.impl_error
        if fn.header_error:
            raise fn.header_error
        if fn.body_start is None:
            self.err(fn.line, f"`{fn.name}` has no body")
        p = self.tr.parser
        p.i = fn.body_start
        p.macro_params = list(fn.macro_params)
        body = p.parse_block()
        sc = Scope()
        env, pnames, binders, mut_var = {}, [], [], None
        for pn, pty, pmut in fn.params:
            ty = self.norm(pty, fn.line)
            is_mut_ref = pty[0] == "ref" and pty[1]
            comps = self.comp_tys(ty, fn.line)
            ps = [f"p{len(pnames) + j}" for j in range(len(comps))]
            pnames += ps
            binders += [(x, self.lean_ty(t, fn.line)) for x, t in zip(ps, comps)]
            env[pn] = B(ty, ps if ty[0] == "struct" else ps[0], pmut or is_mut_ref)
            if ty[0] == "struct" and is_mut_ref:
                if mut_var is not None:
                    self.err(fn.line, "two `&mut` struct parameters")
                mut_var = pn
        ret = self.norm(fn.ret, fn.line)
        ret_tys = ([self.lean_ty(t, fn.line) for t in self.comp_tys(env[mut_var].ty, fn.line)] if mut_var else []) + \
                  ([] if ret == UNIT else [self.lean_ty(t, fn.line) for t in self.comp_tys(ret, fn.line)])

        def do_ret(e2, expr, line):
            cur = list(e2[mut_var].val) if mut_var else []
            if expr is None:
                if ret != UNIT:
                    self.err(line, f"`{fn.name}` ends without the value its signature promises")
                return [".ok " + self.tuple_of(cur)]
            st, t, ty = self.ex(expr, e2, sc, ret)
            if ty == PROP:
                t, ty = f"(decide ({t}))", BOOL
            if ty != ret:
                self.err(line, f"`{fn.name}` returns a value of type `{ty}`, declared `{ret}`")
            cur2 = list(e2[mut_var].val) if mut_var else []          # the expression may have called `&mut` methods
            return st + [".ok " + self.tuple_of(cur2 + (list(t) if isinstance(t, list) else [t]))]
        ctx = Ctx("fn", do_ret, None, None)
        lines = self.seq(body.stmts, 0, body.tail, env, sc, ctx, lambda e2: do_ret(e2, None, fn.line), lambda e2, tail: do_ret(e2, tail, tail.line))
        groups = []
        for x, t in binders:
            if groups and groups[-1][1] == t:
                groups[-1][0].append(x)
            else:
                groups.append(([x], t))
        tbind = "".join(f" ({t} : IntTy)" for t in self.tparams)
        head = f"@[src_def] def {fn.lean} (fuel : Nat){tbind}" + "".join(f" ({' '.join(xs)} : {t})" for xs, t in groups) + \
               f" : Except Panic ({' × '.join(ret_tys) if ret_tys else 'Unit'}) :="
        return self.loop_defs + ["\n".join([head] + indent(lines))]


class Translator:
    def __init__(self, src, file, struct):
        self.file = file
        self.parser = RParser(src, file)
        self.prog = self.parser.parse_program()
        if struct not in self.prog.structs:
            raise TranslateError(file, 1, f"struct `{struct}` not found")
        self.struct = struct
        self.sigs, self.defs, self.order, self.in_progress = {}, [], [], []
        self.used_consts = set()
        for fn in self.prog.fns:
            fn.lean = self.lean_name(fn)

    def lean_name(self, fn):
        if fn.macro:
            return fn.macro
        if fn.trait is not None:
            t = fn.self_ty
            return f"{'String' if t == STRING else t[0]}_{fn.name}"
        return fn.name

    def find_fn(self, name, line):
        """a function of the inherent impl of the struct (method / associated function calls are resolved by name)"""
        c = [f for f in self.prog.fns if f.name == name and f.trait is None and f.macro is None and f.self_ty == ("named", self.struct)]
        if len(c) != 1:
            raise TranslateError(self.file, line, f"call of `{name}`: {len(c)} functions of that name in `impl {self.struct}` (a trait method of a generic type has no rule)")
        return c[0]

    def request(self, fn, line, caller=None):
        if id(fn) in self.sigs:
            return self.sigs[id(fn)]
        if fn in self.in_progress:
            raise TranslateError(self.file, line, f"recursion through `{fn.name}` is outside the translated subset")
        self.in_progress.append(fn)
        em = FnEmitter(self, fn)
        if fn.header_error:
            raise fn.header_error
        sig = {"lean": fn.lean, "params": [(em.norm(pty, fn.line), pty[0] == "ref" and pty[1]) for _, pty, _ in fn.params], "ret": em.norm(fn.ret, fn.line)}
        if fn.macro and caller is not None:
            raise TranslateError(self.file, line, "a call into a macro-generated impl has no rule")
        self.defs += em.emit()
        self.sigs[id(fn)] = sig
        self.order.append(fn)
        self.in_progress.pop()
        return sig

    def const_term(self, e):
        if e.kind == "lit":
            return str(e.value)
        if e.kind == "bin" and e.op in ("+", "-", "*", "<<"):
            return f"({self.const_term(e.l)} {'<<<' if e.op == '<<' else e.op} {self.const_term(e.r)})"
        raise TranslateError(self.file, e.line, "a constant expression outside the translated subset (literals, `<< + - *`)")

    def resolve(self, w):
        """`f` (inherent fn of the struct) | `Type::f` (trait impl for String / char) | `m!` (the impl inside macro m)"""
        if w.endswith("!"):
            m = self.prog.macros.get(w[:-1])
            if m is None:
                raise TranslateError(self.file, 1, f"macro `{w}` not found")
            if m.error:
                raise m.error
            c = [f for f in self.prog.fns if f.macro == m.name]
        elif "::" in w:
            tname, fname = w.split("::")
            c = [f for f in self.prog.fns if f.name == fname and f.trait is not None and f.macro is None
                 and f.self_ty == (STRING if tname == "String" else (tname,))]
        else:
            c = [f for f in self.prog.fns if f.name == w and f.trait is None and f.macro is None and f.self_ty == ("named", self.struct)]
        if len(c) != 1:
            raise TranslateError(self.file, 1, f"requested function `{w}`: {len(c)} candidates in the source")
        return c[0]

    def translate(self, wanted):
        for w in wanted:
            self.request(self.resolve(w), 1)
        consts = []
        for c in self.prog.consts.values():
            if c.name in self.used_consts:
                if c.ty != USIZE:
                    raise TranslateError(self.file, c.line, "a constant that is not a `usize`")
                consts.append(f"def {c.name} : Nat := {self.const_term(c.expr)}")
        inst = []
        for m in self.prog.macros.values():
            if any(f.macro == m.name for f in self.order):
                rows = []
                for inv in self.prog.invocations:
                    if inv.name == m.name:
                        if len(inv.args) != 1 or inv.args[0] not in INT_TYPES:
                            raise TranslateError(self.file, inv.line, f"invocation `{inv.name}!({', '.join(inv.args)})` is outside the translated subset (one primitive integer type)")
                        s, b = INT_TYPES[inv.args[0]]
                        rows.append(f"IntTy.mk {'true' if s else 'false'} {b}")
                inst.append(f"def {m.name}_instances : List IntTy :=\n  [{', '.join(rows)}]")
        return consts + self.defs + inst

    def not_translated(self):
        done = {id(f) for f in self.order}
        out = []
        for f in self.prog.fns:
            if id(f) not in done and f.body_start is not None:
                why = f.header_error or f.impl_error
                out.append(f"{self.lean_name(f)} (line {f.line})" + (f": {why.msg}" if why else ": not requested"))
        for m in self.prog.macros.values():
            if m.error:
                out.append(f"macro {m.name}! (line {m.line}): {m.error.msg}")
        return out


HEADER = """import RlibModel.Model.Common
import RlibModel.Generated.AttrSrc
import RlibModel.Generated.IoPrelude
/-!
GENERATED by `tools/rs2lean_reader.py` from the source text of `{rel}` on every run of `./check {pid}`
— do not edit by hand.  Translation scheme: the doc comment at the top of `tools/rs2lean_reader.py`.
The struct is the tuple of its fields (buffer, begin, end, byte source, eof — in declaration order); a `&mut self` function returns the new
components followed by its result; `usize` is `Nat` with checked `+ -` (`SrcIo.uadd/usub`), `u8` / `char` are `UInt8`, a `String` is the
`Array UInt8` of its code points, `$t` values are `Int`s checked against `(t0 : IntTy)`; the external `Read::read` is the ORACLE
`SrcIo.read` on the explicit byte-source parameter; slices, `copy_within`, indexing are the fixed functions of `Generated/IoPrelude.lean`;
`while` loops run on `fuel`, the retry `loop` around the oracle on `SrcIo.retryBudget`.  Variables are renamed (`p*`, `v*`, `t*`): the
text depends on the source only up to renaming, comments and layout.  `Lemmas/{stem}.lean` proves that each definition returns what the
hand-written model (`Model/Reader.lean`) returns.
-/
set_option linter.unusedVariables false
namespace {ns}
open Rlib

"""


def render(defs, ns, rel, pid, stem, failure=None):
    text = HEADER.format(rel=rel, pid=pid, ns=ns, stem=stem)
    if failure is not None:
        safe = failure.replace("-/", "- /").replace("/-", "/ -")
        text += f"/- TRANSLATION FAILED — no definitions; everything that refers to them stops compiling.\n   {safe} -/\n\n"
    else:
        text += "\n\n".join(defs) + "\n\n"
    return text + f"end {ns}\n"


def run(src_path, out_path, ns, rel, pid, struct, wanted):
    """Translate `src_path` and (re)write `out_path` when its content changes.  -> (info, problems).  A failed translation writes a file
    with no definitions (never a stale one) and reports a problem that starts with the SUBSET prefix of rs2lean.py."""
    stem = os.path.splitext(os.path.basename(out_path))[0]
    problems, info = [], {"functions": [], "loops": [], "not_translated": []}
    try:
        tr = Translator(open(src_path).read(), rel, struct)
        defs = tr.translate(wanted)
        info = {"functions": [f.lean for f in tr.order],
                "loops": [m.group(1) for d in defs for m in [re.match(r"@\[src_def\] def (\w+_loop\d+) ", d)] if m],
                "constants": sorted(tr.used_consts), "struct": struct,
                "instances": {m: [" ".join(i.args) for i in tr.prog.invocations if i.name == m] for m in tr.prog.macros if any(f.macro == m for f in tr.order)},
                "not_translated": tr.not_translated()}
        text = render(defs, ns, rel, pid, stem)
    except (OSError, TranslateError) as e:
        problems.append(SUBSET + f"rs2lean_reader: {e}" if isinstance(e, TranslateError) else f"rs2lean_reader: {e}")
        text = render([], ns, rel, pid, stem, failure=str(e))
    info["rewritten"] = write_if_changed(out_path, text)
    return info, problems


def main(argv):
    import argparse
    ap = argparse.ArgumentParser()
    ap.add_argument("src")
    ap.add_argument("--out", required=True)
    ap.add_argument("--namespace", required=True)
    ap.add_argument("--struct", default="Reader")
    ap.add_argument("--fns", required=True)
    ap.add_argument("--rel", default=None)
    ap.add_argument("--pid", default="C08")
    a = ap.parse_args(argv)
    info, problems = run(a.src, a.out, a.namespace, a.rel or a.src, a.pid, a.struct, a.fns.split(","))
    print(json.dumps({"info": info, "problems": problems}, indent=1))
    return 1 if problems else 0


if __name__ == "__main__":
    sys.exit(main(sys.argv[1:]))
